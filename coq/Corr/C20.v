(** C20 — correspondence checker for the transport adapters
    ([pubsub/pubsubcoreapi], [pubsub/oneonone], [pubsub/directchannel], [pubsub/pubsubraw]).

    [agree]: the models of [Model.Transport] / [Model.Wire] compute what the adapters were
    observed to do.  [holds]: the executable statement of the property accepts it. *)
From Orbit Require Export Corr.Common Model.Transport Model.Wire Model.Current.

(** Mechanism switch of [frame_decode] matching /repo as it stands: the size limit is
    compared after the conversion to [int] (signed).  It belongs in [Model/Current.v] as
    [frame_unsigned_cmp_current]; it is defined here because this checker was authored
    without write access to the shared model tree.  For every length prefix below 2^63 (the
    only ones the C20 driver generates; 2^63 and above is C12's subject) both values of the
    switch compute the same result. *)
Definition c20_unsigned_cmp : bool := frame_unsigned_cmp_current.

(** * Small decidable helpers *)

Definition pev_eqb (a b : pevent) : bool :=
  match a, b with
  | PJoin p, PJoin q => (p =? q)%N
  | PLeave p, PLeave q => (p =? q)%N
  | _, _ => false
  end.

Fixpoint count_by {A} (eqb : A -> A -> bool) (x : A) (l : list A) : nat :=
  match l with
  | [] => O
  | y :: r => if eqb x y then S (count_by eqb x r) else count_by eqb x r
  end.

(** multiset equality: same length and every element of [a] occurs equally often in both *)
Definition perm_by {A} (eqb : A -> A -> bool) (a b : list A) : bool :=
  Nat.eqb (length a) (length b) &&
  forallb (fun x => Nat.eqb (count_by eqb x a) (count_by eqb x b)) a.

Definition set_eqN (a b : list N) : bool :=
  forallb (fun x => memN x b) a && forallb (fun x => memN x a) b.

Fixpoint nodupN (l : list N) : bool :=
  match l with [] => true | x :: r => negb (memN x r) && nodupN r end.

Definition pairNb_eqb (a b : N * bytes) : bool := (fst a =? fst b)%N && bytes_eqb (snd a) (snd b).
Definition trip_eqb (a b : N * N * N) : bool :=
  let '(a1, a2, a3) := a in let '(b1, b2, b3) := b in (a1 =? b1)%N && (a2 =? b2)%N && (a3 =? b3)%N.

Definition opt_bytes_eqb (a b : option bytes) : bool :=
  match a, b with
  | Some x, Some y => bytes_eqb x y
  | None, None => true
  | _, _ => false
  end.

(** * Membership watching ([pubsubcoreapi] [peersDiff] / [WatchPeers]) *)

(** the model's events poll by poll; [watch] is their concatenation *)
Fixpoint polls (old : list N) (snaps : list (list N)) : list (list pevent) :=
  match snaps with
  | [] => []
  | s :: rest => poll_events old s :: polls s rest
  end.

Lemma watch_polls : forall snaps old, watch old snaps = concat (polls old snaps).
Proof. induction snaps as [|s r IH]; intros old; simpl; [reflexivity | now rewrite IH]. Qed.

(** The observed events of each poll must be the model's events of that poll: the joins
    first, in snapshot order; then the leaves in any order (the Go code ranges over a map). *)
Fixpoint polls_agree (old : list N) (snaps : list (list N)) (obs : list (list pevent)) : bool :=
  match snaps, obs with
  | [], [] => true
  | s :: rest, o :: orest =>
    let m := poll_events old s in
    let nj := length (fst (peers_diff old s)) in
    list_eqb pev_eqb (firstn nj o) (firstn nj m) &&
    perm_by pev_eqb (skipn nj o) (skipn nj m) &&
    polls_agree s rest orest
  | _, _ => false
  end.

(** replay of the observed events as a membership set; [None] as soon as an event reports
    no change (a join for a present peer, a leave for an absent one) *)
Fixpoint replay_strict (m : list N) (evs : list pevent) : option (list N) :=
  match evs with
  | [] => Some m
  | e :: r =>
    let legal := match e with PJoin p => negb (memN p m) | PLeave p => memN p m end in
    if legal then replay_strict (apply_event m e) r else None
  end.

(** * Channel names ([oneonone] [getChannelID]) *)

(** "/ipfs-pubsub-direct-channel/v1/" *)
Definition chan_prefix : bytes :=
  [47;105;112;102;115;45;112;117;98;115;117;98;45;100;105;114;101;99;116;45;99;104;97;110;110;101;108;47;118;49;47]%N.
Definition chan_render (pr : bytes * bytes) : bytes := chan_prefix ++ fst pr ++ [47%N] ++ snd pr.

Definition same_unordered (a b c d : bytes) : bool :=
  (bytes_eqb a c && bytes_eqb b d) || (bytes_eqb a d && bytes_eqb b c).

(** * Pairwise pubsub channel ([oneonone] [monitorTopic]) *)

(** model: with [oneonone_filters_sender_current] only messages published by the channel's
    peer are forwarded (the repaired tree); at the pinned commit own messages were skipped and
    every other message was emitted attributed to the channel's peer, whoever published it *)
Definition monitor_model (self target : N) (msgs : list (N * bytes)) : list (N * bytes) :=
  if oneonone_filters_sender_current
  then filter (fun m => (fst m =? target)%N) msgs          (* only the channel's peer is forwarded *)
  else map (fun m => (target, snd m)) (forward self msgs)  (* pinned commit: everybody but self, attributed to the peer *).

(** statement: own messages never appear; every message of the channel's peer appears, in
    order, attributed to it; a message published on the topic by anyone else is either
    dropped or attributed to its real sender *)
Fixpoint monitor_spec (self target : N) (msgs : list (N * bytes)) (obs : list (N * bytes)) : bool :=
  match msgs with
  | [] => match obs with [] => true | _ => false end
  | m :: r =>
    if (fst m =? self)%N then monitor_spec self target r obs
    else if (fst m =? target)%N then
      match obs with
      | o :: orest => pairNb_eqb o m && monitor_spec self target r orest
      | [] => false
      end
    else
      match obs with
      | o :: orest => if pairNb_eqb o m then monitor_spec self target r orest
                      else monitor_spec self target r obs
      | [] => monitor_spec self target r []
      end
  end.

(** * Frames ([directchannel] [Send] / [handleNewPeer]) *)

Definition small_len : N := 2000%N.

(** does the model deliver a payload of this length?  Small lengths run the codec on a
    zero payload; large ones use the expectation proved as [frame_roundtrip] /
    [frame_oversize_refused] (all generated lengths are far below 2^63). *)
Definition model_delivers (len : N) : bool :=
  if (len <=? small_len)%N then
    let p := repeat 0%N (N.to_nat len) in
    match frame_decode c20_unsigned_cmp (frame_encode p) with
    | Ok q => bytes_eqb q p
    | _ => false
    end
  else (len <=? frame_cap)%N.

Definition decode_matches (uc : bool) (bs : bytes) (got : option bytes) : bool :=
  match frame_decode uc bs, got with
  | Ok q, Some g => bytes_eqb q g
  | Err _, None => true
  | _, _ => false
  end.

Inductive case :=
(* pubsubcoreapi WatchPeers: scripted snapshots, observed events per poll, final Peers() *)
| CWatch (snaps : list (list N)) (obs : list (list pevent)) (final : list N)
(* pubsubcoreapi WatchPeers on a topic that an earlier watcher (whose context has ended) left
   with the members [prev]: snapshots, observed events per poll, final Peers() *)
| CRewatch (prev : list N) (snaps : list (list N)) (obs : list (list pevent)) (final : list N)
(* WatchMessages (pubsubcoreapi: ordered = true; pubsubraw over libp2p pubsub: ordered = false):
   published (sender, payload) pairs and the payloads handed to the consumer of [self] *)
| CForward (ordered : bool) (self : N) (msgs : list (N * bytes)) (obs : list bytes)
(* oneonone: topic published on by a -> b and by b -> a (peer ids as strings) *)
| CChannel (a b : bytes) (tab tba : bytes)
(* oneonone: topics of a -> b and c -> d *)
| CChanPair (a b c d : bytes) (t1 t2 : bytes)
(* oneonone monitorTopic through Connect: messages on the topic, emitted (peer, payload) *)
| CMonitor (self target : N) (msgs : list (N * bytes)) (obs : list (N * bytes))
(* directchannel Send -> handleNewPeer between in-memory hosts *)
| CFrame (len : N) (delivered same sender_ok later_ok : bool)
| CFrameB (p : bytes) (got : option bytes) (sender_ok : bool)
(* bytes written by Send, captured by a raw stream handler *)
| CWire (p : bytes) (wire : bytes)
| CWireBig (len : N) (hdr : bytes) (body_len : N) (body_same : bool)
(* raw bytes written on a stream to handleNewPeer, then half-closed *)
| CRaw (bs : bytes) (got : option bytes) (sender_ok later_ok : bool)
(* concurrent sends of two hosts to a third: (sender, payload id, length) sent and received *)
| CInter (sent recv : list (N * N * N)).

Definition check (c : case) : bool * bool :=
  match c with
  | CWatch snaps obs final =>
    let lastm := last snaps [] in
    (polls_agree [] snaps obs && listN_eqb final lastm,
     match replay_strict [] (concat obs) with
     | Some m => set_eqN m lastm
     | None => false
     end && set_eqN final lastm && nodupN final)
  | CRewatch prev snaps obs final =>
    let lastm := last snaps [] in
    let start := if rewatch_fresh_current then [] else prev in
    (polls_agree start snaps obs && listN_eqb final lastm,
     match replay_strict [] (concat obs) with
     | Some m => set_eqN m lastm
     | None => false
     end && set_eqN final lastm && nodupN final)
  | CForward ordered self msgs obs =>
    let want := map snd (forward self msgs) in
    let ok := if ordered then list_eqb bytes_eqb obs want else perm_by bytes_eqb obs want in
    (ok, ok)
  | CChannel a b tab tba =>
    (bytes_eqb tab (chan_render (channel_id a b)) && bytes_eqb tba (chan_render (channel_id b a)),
     bytes_eqb tab tba && (bytes_eqb tab (chan_render (a, b)) || bytes_eqb tab (chan_render (b, a))))
  | CChanPair a b c d t1 t2 =>
    (bytes_eqb t1 (chan_render (channel_id a b)) && bytes_eqb t2 (chan_render (channel_id c d)),
     Bool.eqb (bytes_eqb t1 t2) (same_unordered a b c d))
  | CMonitor self target msgs obs =>
    (list_eqb pairNb_eqb obs (monitor_model self target msgs),
     monitor_spec self target msgs obs)
  | CFrame len delivered same sender_ok later_ok =>
    (Bool.eqb (model_delivers len) delivered && (if delivered then same && sender_ok else true),
     (if (len <=? frame_cap)%N then delivered && same && sender_ok else negb delivered) && later_ok)
  | CFrameB p got sender_ok =>
    (decode_matches c20_unsigned_cmp (frame_encode p) got,
     opt_bytes_eqb got (Some p) && sender_ok)
  | CWire p wire =>
    (bytes_eqb wire (frame_encode p), decode_matches true wire (Some p))
  | CWireBig len hdr body_len body_same =>
    (bytes_eqb hdr (put_uvarint len) && (body_len =? len)%N && body_same,
     match read_uvarint hdr with
     | inl (l, []) => (l =? len)%N
     | _ => false
     end && (body_len =? len)%N && body_same)
  | CRaw bs got sender_ok later_ok =>
    (decode_matches c20_unsigned_cmp bs got,
     decode_matches true bs got && (match got with Some _ => sender_ok | None => true end) && later_ok)
  | CInter sent recv =>
    let want := filter (fun t => (snd t <=? frame_cap)%N) sent in
    let ok := perm_by trip_eqb recv want in
    (ok, ok)
  end.

Definition failures (base : nat) (cs : list case) := failures_from check base cs.

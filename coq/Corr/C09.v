(** C09 — databases opened by one instance do not affect one another: correspondence
    checker.  One case = one settled step (a write on X's database j, a replication of
    database j from another instance, a load of database j) on an instance X that has k
    databases open, with everything observed about ALL k databases before and after. *)
From Orbit Require Export Corr.Common Model.Instance Model.Joins Model.Current.

(** The mechanisms as /repo stands (move to Model/Current.v when the fix is merged):
    every store's write listener reacts to the write events of all stores of the instance,
    and every store's main loop sees the load events of all replicators of the instance. *)
(* c09_filters_address_current, c09_private_bus_current live in Model/Current.v *)

Definition c09_mech : imech :=
  mkIM c09_filters_address_current c09_private_bus_current max_monotone_current.

(** one database of X at rest: log and heads (hash numbers, ascending), replication
    progress / maximum, the decoded [_remoteHeads] cache (ascending; absent = []) *)
Record obs := mkObs { o_log : list N; o_heads : list N; o_prog : Z; o_max : Z; o_cache : list N }.

(** what database j's replicator emitted during a replication step, in the order in which
    store j's own main loop handled it (read off store j's own events) *)
Inductive remit :=
| RAdded (h : N) (t : Z)
| RProgress (e : N) (t : Z)
| REnd (batch : list N).

Inductive cop :=
| OWrite (j : nat) (e : N) (t : Z)
| OSync (j : nat) (em : list remit)
| OLoad (j : nat).

(** an entry as seen in a payload or event: (hash number, index of the database whose
    address is the entry's log id; 99 = none of X's databases) *)
Definition tent := (N * nat)%type.
(** a payload published by X: (topic index, index of the address in the payload, heads);
    a store event seen on X's bus: (index of the event's address, kind, entries) with kind
    0 = write, 1 = replicate, 2 = replicate-progress, 3 = replicated *)
Definition triple := (nat * nat * list tent)%type.

Inductive case :=
| CStep (k : nat) (op : cop) (published : list triple) (before after : list obs) (events : list triple)
(* everything the instance published while the announcer of a write on one database was held
   inside its pubsub call and another database was written many times: every payload is on
   the topic of the address it carries and carries heads of that database only (this is what
   the instance model publishes for any interleaving of announcers) *)
| CPubs (published : list triple)
(* a database created on an instance after a head-exchange message for ANOTHER, closed database
   had arrived there: replication progress and maximum, number of entries, number of
   load/replication events of the new database (every store of the instance model starts
   untouched, whatever messages for other addresses the instance has seen) *)
| CFresh (progress max : Z) (entries events : nat)
(* a peer opened the databases [joined] of an instance whose k databases had the [heads]
   (database, head); [sent] = the head-exchange messages the instance sent to that peer over the
   direct channel: (index of the address in the message, heads) *)
| CJoins (k : nat) (heads : list (nat * N)) (joined : list nat) (sent : list (nat * list N)).

Definition cop_target (op : cop) : nat :=
  match op with OWrite j _ _ | OSync j _ | OLoad j => j end.
Definition is_load (op : cop) : bool := match op with OLoad _ => true | _ => false end.

(** * helpers *)
Fixpoint count_occ_b {A} (eqb : A -> A -> bool) (x : A) (l : list A) : nat :=
  match l with
  | [] => O
  | y :: r => if eqb x y then S (count_occ_b eqb x r) else count_occ_b eqb x r
  end.
(** equality as multisets *)
Definition perm_eqb {A} (eqb : A -> A -> bool) (a b : list A) : bool :=
  Nat.eqb (length a) (length b) &&
  forallb (fun x => Nat.eqb (count_occ_b eqb x a) (count_occ_b eqb x b)) a.

Definition tent_eqb (x y : tent) : bool := N.eqb (fst x) (fst y) && Nat.eqb (snd x) (snd y).
Definition triple_eqb (x y : triple) : bool :=
  Nat.eqb (fst (fst x)) (fst (fst y)) && Nat.eqb (snd (fst x)) (snd (fst y)) &&
  list_eqb tent_eqb (snd x) (snd y).

Definition obs0 : obs := mkObs [] [] 0 0 [].
Definition obs_eqb (a b : obs) : bool :=
  listN_eqb (o_log a) (o_log b) && listN_eqb (o_heads a) (o_heads b) &&
  (o_prog a =? o_prog b) && (o_max a =? o_max b) && listN_eqb (o_cache a) (o_cache b).

(** * the model's prediction *)
Definition store_of (o : obs) : store :=
  mkSt (o_log o) (o_heads o) (mkS (o_prog o) (o_max o)) (o_cache o) [] [].

Definition ops_of (op : cop) (heads_after : list N) : list iop :=
  match op with
  | OWrite j e t => [IWrite j e t]
  | OSync j em =>
    map (fun x => match x with
                  | RAdded h t => ILoadAdded j h t
                  | RProgress e t => ILoadProgress j e t
                  | REnd b => ILoadEnd j b heads_after
                  end) em
  | OLoad j => [ILoad j []]
  end.

Definition sevent_kind (e : sevent) : nat :=
  match e with SeWrite _ => 0 | SeReplicate _ => 1 | SeProgress _ => 2 | SeReplicated _ => 3 end%nat.
Definition sevent_ents (e : sevent) : list N :=
  match e with SeWrite l | SeReplicated l => l | SeReplicate h | SeProgress h => [h] end.

(** all entries moved by a step belong to the step's target database *)
Definition model_pubs (j : nat) (s : inst) : list triple :=
  map (fun p : payload => (fst (fst p), snd (fst p), map (fun e => (e, j)) (snd p))) (published s).
Definition model_events (j : nat) (s : inst) : list triple :=
  concat (mapi (fun i st => map (fun ev => (i, sevent_kind ev, map (fun e => (e, j)) (sevent_ents ev)))
                                (st_events st)) s).

(** the model's store against the observation; the status of the target of a Load is not
    compared (one recalculation per cached head, in goroutine order: C19's subject) *)
Definition store_agrees (with_status : bool) (st : store) (o : obs) : bool :=
  perm_eqb N.eqb (st_log st) (o_log o) &&
  perm_eqb N.eqb (st_heads st) (o_heads o) &&
  perm_eqb N.eqb (st_cache st) (o_cache o) &&
  (negb with_status ||
   ((s_progress (st_status st) =? o_prog o) && (s_max (st_status st) =? o_max o))).

Definition agree (k : nat) (op : cop) (pubs : list triple) (before after : list obs) (events : list triple) : bool :=
  let j := cop_target op in
  let s := run c09_mech (ops_of op (o_heads (nth j after obs0))) (map store_of before) in
  Nat.eqb (length before) k && Nat.eqb (length after) k && Nat.ltb j k &&
  forallb (fun i => store_agrees (negb (is_load op && Nat.eqb i j)) (nth i s store0) (nth i after obs0)) (seq 0 k) &&
  perm_eqb triple_eqb (model_pubs j s) pubs &&
  perm_eqb triple_eqb (model_events j s) events.

(** * the property on the observation *)
Definition holds (k : nat) (op : cop) (pubs : list triple) (before after : list obs) (events : list triple) : bool :=
  let j := cop_target op in
  (* a payload on topic t carries address t and only entries of database t *)
  forallb (fun p : triple =>
             Nat.eqb (snd (fst p)) (fst (fst p)) &&
             forallb (fun x : tent => Nat.eqb (snd x) (fst (fst p))) (snd p)) pubs &&
  (* the databases that were not the target of the step are unchanged *)
  forallb (fun i => Nat.eqb i j || obs_eqb (nth i before obs0) (nth i after obs0)) (seq 0 k) &&
  (* a store event with address a carries only entries of database a *)
  forallb (fun p : triple => forallb (fun x : tent => Nat.eqb (snd x) (fst (fst p))) (snd p)) events.

Definition check (c : case) : bool * bool :=
  match c with
  | CStep k op pubs before after events =>
    (agree k op pubs before after events, holds k op pubs before after events)
  | CPubs pubs =>
    let ok := forallb (fun p : triple =>
                Nat.eqb (fst (fst p)) (snd (fst p)) &&
                forallb (fun e : tent => Nat.eqb (snd e) (fst (fst p))) (snd p)) pubs in
    (ok, ok)
  | CFresh progress max entries events =>
    let ok := (progress =? 0)%Z && (max =? 0)%Z && Nat.eqb entries 0 && Nat.eqb events 0 in
    (ok, ok)
  | CJoins k heads joined sent =>
    let ops := map (fun x => JWrite (fst x) (snd x)) heads ++ map (fun j => JJoin j 1) joined in
    let nonempty := fun m : nat * list N => negb (match snd m with [] => true | _ => false end) in
    let dm_eqb := fun a b : nat * list N => Nat.eqb (fst a) (fst b) && list_eqb N.eqb (snd a) (snd b) in
    let model := filter nonempty (map (fun m : dmsg => (snd (fst m), snd m))
                                      (j_sent (jrun c09_join_own_topic_current ops (jinit k)))) in
    let obs := filter nonempty sent in
    (* (messages without heads are not compared: whether an empty exchange is sent at all is
       not the model's business; repeated exchanges count once) *)
    (forallb (fun m => existsb (dm_eqb m) model) obs && forallb (fun m => existsb (dm_eqb m) obs) model,
     forallb (fun m => existsb (Nat.eqb (fst m)) joined) obs)
  end.

Definition failures (base : nat) (cs : list case) := failures_from check base cs.
